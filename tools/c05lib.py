"""Helpers for the C05 check: structural parsers of .xz/.lzma/.lz files (independent of liblzma and of the Lean
model), generators of valid files (through the repo's own `xz` binary), and the property oracle.

A *file record* is a dict:
  name, fmt ('xz'|'lzma'|'lz'), data (bytes), plain (bytes: what the undamaged file decodes to, all streams),
  units  [(start, end, plain_len)]   one per Stream / .lz member / the .lzma stream (end excludes padding after it)
  segs   [(start, end, field)]       partition of the whole file into named fields
  check  the .xz Check ID of the first Stream (None for other formats), checks = per Stream
"""
import os, struct, subprocess, zlib

HEADER_MAGIC = b"\xfd7zXZ\x00"
FOOTER_MAGIC = b"YZ"
CHECK_SIZES = [0, 4, 4, 4, 8, 8, 8, 16, 16, 16, 32, 32, 32, 64, 64, 64]
SUPPORTED_CHECKS = (0, 1, 4, 10)

TELL_NO_CHECK, TELL_UNSUPPORTED_CHECK, TELL_ANY_CHECK, CONCATENATED, IGNORE_CHECK = 1, 2, 4, 8, 16


class ParseError(Exception):
    pass


def vli(buf, p, limit):
    """Decode one VLI at buf[p:limit]; returns (value, new_p)."""
    v, shift, n = 0, 0, 0
    while True:
        if p >= limit or n >= 9:
            raise ParseError("vli")
        b = buf[p]
        p += 1
        n += 1
        v |= (b & 0x7F) << shift
        shift += 7
        if b < 0x80:
            if b == 0 and n > 1:
                raise ParseError("vli non-minimal")
            return v, p


def parse_xz_stream(buf, s, e):
    """Field map of one .xz Stream occupying buf[s:e] exactly. Returns (segs, check_id, [uncompressed sizes])."""
    if e - s < 32 or buf[s:s + 6] != HEADER_MAGIC or buf[e - 2:e] != FOOTER_MAGIC:
        raise ParseError("stream magic")
    segs = [(s, s + 6, "hdr.magic"), (s + 6, s + 8, "hdr.flags"), (s + 8, s + 12, "hdr.crc32")]
    if zlib.crc32(buf[s + 6:s + 8]) != struct.unpack("<I", buf[s + 8:s + 12])[0] or buf[s + 6] != 0 or buf[s + 7] > 15:
        raise ParseError("stream header")
    check = buf[s + 7]
    csz = CHECK_SIZES[check]
    f = e - 12
    bsize = (struct.unpack("<I", buf[f + 4:f + 8])[0] + 1) * 4
    if zlib.crc32(buf[f + 4:f + 10]) != struct.unpack("<I", buf[f:f + 4])[0] or buf[f + 8:f + 10] != buf[s + 6:s + 8]:
        raise ParseError("stream footer")
    ix = f - bsize
    if ix < s + 12:
        raise ParseError("backward size")
    # Index
    if buf[ix] != 0:
        raise ParseError("index indicator")
    p = ix + 1
    count, p2 = vli(buf, p, f)
    isegs = [(ix, ix + 1, "idx.indicator"), (p, p2, "idx.count")]
    p = p2
    recs = []
    for _ in range(count):
        u, p2 = vli(buf, p, f)
        c, p3 = vli(buf, p2, f)
        recs.append((u, c))
        p = p3
    if count:
        isegs.append((isegs[-1][1], p, "idx.records"))
    pad_end = f - 4
    if pad_end < p or pad_end - p > 3 or any(buf[p:pad_end]):
        raise ParseError("index padding")
    if pad_end > p:
        isegs.append((p, pad_end, "idx.pad"))
    if zlib.crc32(buf[ix:pad_end]) != struct.unpack("<I", buf[pad_end:f])[0]:
        raise ParseError("index crc")
    isegs.append((pad_end, f, "idx.crc32"))
    # Blocks
    p = s + 12
    for (unp, unc) in recs:
        hs = (buf[p] + 1) * 4
        if buf[p] == 0 or p + hs > ix:
            raise ParseError("block header size")
        if zlib.crc32(buf[p:p + hs - 4]) != struct.unpack("<I", buf[p + hs - 4:p + hs])[0]:
            raise ParseError("block header crc")
        fl = buf[p + 1]
        segs += [(p, p + 1, "blk.hdr.size"), (p + 1, p + 2, "blk.hdr.flags")]
        q = p + 2
        lim = p + hs - 4
        if fl & 0x40:
            _, q2 = vli(buf, q, lim)
            segs.append((q, q2, "blk.hdr.csize"))
            q = q2
        if fl & 0x80:
            _, q2 = vli(buf, q, lim)
            segs.append((q, q2, "blk.hdr.usize"))
            q = q2
        q0 = q
        for _ in range((fl & 3) + 1):
            _, q = vli(buf, q, lim)
            ps, q = vli(buf, q, lim)
            q += ps
            if q > lim:
                raise ParseError("filter flags")
        segs.append((q0, q, "blk.hdr.filters"))
        if q < lim:
            segs.append((q, lim, "blk.hdr.pad"))
        segs.append((lim, p + hs, "blk.hdr.crc32"))
        comp = unp - hs - csz
        if comp <= 0:
            raise ParseError("unpadded size")
        d0 = p + hs
        d1 = d0 + comp
        segs.append((d0, d1, "blk.data"))
        padn = (-unp) % 4
        if padn:
            segs.append((d1, d1 + padn, "blk.pad"))
        if csz:
            segs.append((d1 + padn, d1 + padn + csz, "blk.check"))
        p = d1 + padn + csz
        if p > ix:
            raise ParseError("block overruns index")
    if p != ix:
        raise ParseError("blocks do not end at the index")
    segs += isegs
    segs += [(f, f + 4, "ftr.crc32"), (f + 4, f + 8, "ftr.bsize"), (f + 8, f + 10, "ftr.flags"), (f + 10, f + 12, "ftr.magic")]
    return segs, check, [c for (_, c) in recs]


def check_partition(segs, n):
    p = 0
    for (a, b, _) in segs:
        if a != p or b <= a:
            raise ParseError("segments are not a partition at %d" % p)
        p = b
    if p != n:
        raise ParseError("segments end at %d of %d" % (p, n))


def field_at(segs, pos):
    lo, hi = 0, len(segs) - 1
    while lo <= hi:
        m = (lo + hi) // 2
        a, b, nme = segs[m]
        if pos < a:
            hi = m - 1
        elif pos >= b:
            lo = m + 1
        else:
            return nme
    return "?"


def make_xz_file(name, streams, paddings):
    """streams: list of (stream bytes, plaintext); paddings: list of pad lengths after each stream (multiples of 4)."""
    data, plain, units, segs, checks = b"", b"", [], [], []
    for (sb, pt), pad in zip(streams, paddings):
        s = len(data)
        data += sb
        sg, chk, _ = parse_xz_stream(data, s, len(data))
        segs += sg
        checks.append(chk)
        units.append((s, len(data), len(pt)))
        plain += pt
        if pad:
            segs.append((len(data), len(data) + pad, "spad"))
            data += b"\0" * pad
    check_partition(segs, len(data))
    return dict(name=name, fmt="xz", data=data, plain=plain, units=units, segs=segs, check=checks[0], checks=checks)


def make_lzma_file(name, data, plain):
    segs = [(0, 1, "lzma.props"), (1, 5, "lzma.dict"), (5, 13, "lzma.usize"), (13, len(data), "lzma.data")]
    return dict(name=name, fmt="lzma", data=data, plain=plain, units=[(0, len(data), len(plain))], segs=segs, check=None, checks=[])


def lz_member(raw_lzma1, plain, version=1, ds_byte=0x10):
    hdr = b"LZIP" + bytes([version, ds_byte])
    ftr = struct.pack("<IQ", zlib.crc32(plain), len(plain))
    if version >= 1:
        ftr += struct.pack("<Q", len(hdr) + len(raw_lzma1) + len(ftr) + 8)
    return hdr + raw_lzma1 + ftr


def make_lz_file(name, members, trailing=b""):
    """members: list of (member bytes, plaintext, version)."""
    data, plain, units, segs = b"", b"", [], []
    for (mb, pt, ver) in members:
        s = len(data)
        data += mb
        e = len(data)
        fsz = 20 if ver >= 1 else 12
        segs += [(s, s + 4, "lz.magic"), (s + 4, s + 5, "lz.version"), (s + 5, s + 6, "lz.dict"), (s + 6, e - fsz, "lz.data"),
                 (e - fsz, e - fsz + 4, "lz.crc32"), (e - fsz + 4, e - fsz + 12, "lz.dsize")]
        if ver >= 1:
            segs.append((e - 8, e, "lz.msize"))
        units.append((s, e, len(pt)))
        plain += pt
    if trailing:
        segs.append((len(data), len(data) + len(trailing), "lz.trailing"))
        data += trailing
    check_partition(segs, len(data))
    return dict(name=name, fmt="lz", data=data, plain=plain, units=units, segs=segs, check=None, checks=[])


def split_xz_streams(buf):
    """Split a valid multi-Stream .xz file into [(stream_start, stream_end, padding_after)], walking backwards from the
    end the way a random-access reader does (Stream Padding, Stream Footer, Backward Size, Index, sum of the Blocks)."""
    out, e = [], len(buf)
    while e > 0:
        pe = e
        while e >= 4 and buf[e - 4:e] == b"\0\0\0\0":
            e -= 4
        pad = pe - e
        if e < 32 or buf[e - 2:e] != FOOTER_MAGIC:
            raise ParseError("footer magic at %d" % e)
        f = e - 12
        bsize = (struct.unpack("<I", buf[f + 4:f + 8])[0] + 1) * 4
        ix = f - bsize
        if ix < 12 or buf[ix] != 0:
            raise ParseError("index")
        count, p = vli(buf, ix + 1, f)
        total = 0
        for _ in range(count):
            u, p = vli(buf, p, f)
            _, p = vli(buf, p, f)
            total += (u + 3) // 4 * 4
        s = ix - total - 12
        if s < 0 or buf[s:s + 6] != HEADER_MAGIC:
            raise ParseError("header magic at %d" % s)
        out.append((s, e, pad))
        e = s
    return list(reversed(out))


# ----------------------------------------------------------------------------------------------------------------
# generation through the repo's xz binary
# ----------------------------------------------------------------------------------------------------------------

def run_xz(xz, args, inp):
    p = subprocess.run([xz] + args, input=inp, stdout=subprocess.PIPE, stderr=subprocess.PIPE)
    if p.returncode != 0:
        raise RuntimeError("xz %s failed: %s" % (" ".join(args), p.stderr.decode("utf-8", "replace")[-500:]))
    return p.stdout


def plaintext(rng, n, kind):
    if n == 0:
        return b""
    if kind == "text":
        words = [b"the", b"quick", b"brown", b"fox", b"jumps", b"over", b"lazy", b"dog", b"xz", b"lzma", b"\n", b"0123", b"verif"]
        out = bytearray()
        while len(out) < n:
            out += rng.choice(words) + b" "
        return bytes(out[:n])
    if kind == "random":
        return bytes(rng.getrandbits(8) for _ in range(n))
    if kind == "zeros":
        return bytes(n)
    if kind == "ramp":
        return bytes((i * 3 + (i >> 5)) & 0xFF for i in range(n))
    if kind == "x86":
        out = bytearray()
        while len(out) < n:
            out += rng.choice((b"\xe8", b"\xe9", b"\x0f\x84", b"\x90\x90")) + bytes(rng.getrandbits(8) for _ in range(4))
            out += b"\x55\x89\xe5"
        return bytes(out[:n])
    # mixed: compressible part, then an incompressible part (forces an uncompressed LZMA2 chunk in a later Block)
    half = n // 2
    return plaintext(rng, half, "text") + plaintext(rng, n - half, "random")


CHECK_NAMES = {0: "none", 1: "crc32", 4: "crc64", 10: "sha256"}
BCJ = ["x86", "arm", "armthumb", "arm64", "powerpc", "ia64", "sparc", "riscv"]


def gen_xz_stream(xz, rng, plain, check=None, mode=None):
    """One .xz Stream produced by the real encoder. Returns (bytes, description)."""
    check = check if check is not None else rng.choice((0, 1, 4, 10))
    mode = mode or rng.choice(("plain", "plain", "blocks-nosize", "blocks-mt", "blocklist", "delta", "bcj", "lclppb"))
    args = ["-c", "--check=" + CHECK_NAMES[check]]
    dict_kib = rng.choice((4, 4, 8, 64))
    lz = "dict=%dKiB" % dict_kib
    if mode == "lclppb":
        lc = rng.randrange(0, 5)
        lp = rng.randrange(0, 5 - lc)
        lz += ",lc=%d,lp=%d,pb=%d" % (lc, lp, rng.randrange(0, 5))
    if mode == "delta":
        args += ["--delta=dist=%d" % rng.choice((1, 2, 3, 4, 16, 256))]
    if mode == "bcj":
        args += ["--" + rng.choice(BCJ)]
        if rng.random() < 0.3:
            args += ["--delta=dist=%d" % rng.choice((1, 4))]
    args += ["--lzma2=" + lz]
    bs = max(1, len(plain) // rng.choice((2, 3, 4)))
    if mode == "blocks-nosize":
        args += ["-T1", "--block-size=%d" % bs]
    elif mode == "blocks-mt":
        args += ["-T2", "--block-size=%d" % bs]
    elif mode == "blocklist":
        a = max(1, len(plain) // 3)
        args += ["-T1", "--block-list=%d,%d,0" % (a, max(1, a // 2))]
    else:
        args += ["-T1"]
    return run_xz(xz, args, plain), "check=%s mode=%s %s" % (CHECK_NAMES[check], mode, lz)


def gen_lzma(xz, rng, plain):
    lc = rng.randrange(0, 5)
    lp = rng.randrange(0, 5 - lc)
    return run_xz(xz, ["-c", "--format=lzma", "--lzma1=dict=%dKiB,lc=%d,lp=%d,pb=%d" % (rng.choice((4, 64)), lc, lp, rng.randrange(0, 5))], plain)


def gen_lz_member(xz, rng, plain, version=1):
    raw = run_xz(xz, ["-c", "--format=raw", "--lzma1=dict=64KiB,lc=3,lp=0,pb=2"], plain)
    return lz_member(raw, plain, version=version, ds_byte=0x10)


# ----------------------------------------------------------------------------------------------------------------
# expectations (the property oracle)
# ----------------------------------------------------------------------------------------------------------------

def is_success(api, ret):
    return ret == (0 if api == "sbd" else 1)


def concat_mode(frec, api, flags):
    if api == "alone":
        return False
    return bool(flags & CONCATENATED)


def valid_cut_outputs(frec, api, flags):
    """For truncation: map cut length -> plaintext length that a correct decoder may report as complete.
    Non-concatenated: any cut at or after the end of the first unit gives unit 1.
    Concatenated: a cut at the end of unit j plus a multiple of four bytes of the padding that follows (.xz), exactly at
    the end of a member or anywhere in the trailing data after the last member (.lz)."""
    units = frec["units"]
    n = len(frec["data"])
    ok = {}
    if not concat_mode(frec, api, flags):
        e1 = units[0][1]
        for t in range(e1, n + 1):
            ok[t] = units[0][2]
        return ok
    acc = 0
    for j, (s, e, pl) in enumerate(units):
        acc += pl
        nxt = units[j + 1][0] if j + 1 < len(units) else n
        if frec["fmt"] == "xz":
            for t in range(e, nxt + 1, 4):
                ok[t] = acc
        elif frec["fmt"] == "lz":
            # after a complete member, 0..3 further bytes of the next magic (or any trailing bytes) are "trailing data"
            if j + 1 < len(units):
                ok[e] = acc          # a cut 1-3 bytes into the next member is NOT legitimate (see KEY_LZ_TRAILING in c05.py)
            else:
                for t in range(e, n + 1):
                    ok[t] = acc
        else:
            for t in range(e, n + 1):
                ok[t] = acc
    return ok


def has_verified_check(frec, api, flags):
    """Does a successful decode imply that an integrity check over the data was verified?"""
    if flags & IGNORE_CHECK and api != "alone":
        return False
    if frec["fmt"] == "xz":
        return all(c in (1, 4, 10) for c in frec["checks"])
    if frec["fmt"] == "lz":
        return True
    return False


def visible_end(frec, api, flags):
    """Bytes at or after this offset are never examined by a correct decoder in this mode."""
    if concat_mode(frec, api, flags):
        return len(frec["data"])
    return frec["units"][0][1]


# ----------------------------------------------------------------------------------------------------------------
# crafted damage: a field is changed AND the CRC32 that covers it is recomputed, so that the checks behind the CRC
# (which a plain bit flip never reaches) are exercised
# ----------------------------------------------------------------------------------------------------------------

def enc_vli(v):
    out = bytearray()
    while v >= 0x80:
        out.append((v & 0x7F) | 0x80)
        v >>= 7
    out.append(v)
    return bytes(out)


def _segs_of_stream(frec, k):
    s, e, _ = frec["units"][k]
    return [(a, b, n) for (a, b, n) in frec["segs"] if s <= a and b <= e]


def crafted_variants(frec, rng):
    """Returns [(description, field, damaged bytes)] for a .xz file record; every variant differs from the original in a
    non-payload field and has all covering CRC32s recomputed. Streams other than the first are left alone."""
    if frec["fmt"] != "xz":
        return []
    d = frec["data"]
    out = []
    segs = _segs_of_stream(frec, 0)
    byname = {}
    for (a, b, n) in segs:
        byname.setdefault(n, []).append((a, b))
    s0, e0, _ = frec["units"][0]

    def fix_footer(buf):
        f = e0 - 12
        buf[f:f + 4] = struct.pack("<I", zlib.crc32(bytes(buf[f + 4:f + 10])))

    def fix_header(buf):
        buf[s0 + 8:s0 + 12] = struct.pack("<I", zlib.crc32(bytes(buf[s0 + 6:s0 + 8])))

    def fix_index(buf, ix0, crc_at):
        buf[crc_at:crc_at + 4] = struct.pack("<I", zlib.crc32(bytes(buf[ix0:crc_at])))

    f = e0 - 12
    check = frec["checks"][0]
    # C1 Backward Size +/- 4
    for delta in (1, -1):
        v = struct.unpack("<I", d[f + 4:f + 8])[0] + delta
        if v >= 0:
            b = bytearray(d)
            b[f + 4:f + 8] = struct.pack("<I", v)
            fix_footer(b)
            out.append(("backward-size%+d(words), footer CRC fixed" % delta, "ftr.bsize", bytes(b)))
    # C2 footer check type changed
    for newc in sorted({(check + 1) % 16, 0 if check else 1, 4 if check != 4 else 10}):
        if newc != check:
            b = bytearray(d)
            b[f + 9] = newc
            fix_footer(b)
            out.append(("footer check id %d->%d, CRC fixed" % (check, newc), "ftr.flags", bytes(b)))
    # C3 header check type changed (footer untouched)
    for newc in sorted({(check + 1) % 16, (check + 2) % 16}):
        b = bytearray(d)
        b[s0 + 7] = newc
        fix_header(b)
        out.append(("header check id %d->%d, CRC fixed" % (check, newc), "hdr.flags", bytes(b)))
    # C3b reserved bits set in header / footer flags
    b = bytearray(d); b[s0 + 7] |= 0x10; fix_header(b)
    out.append(("header flags reserved bit, CRC fixed", "hdr.flags", bytes(b)))
    b = bytearray(d); b[f + 8] = 1; fix_footer(b)
    out.append(("footer flags first byte nonzero, CRC fixed", "ftr.flags", bytes(b)))
    # Index
    (ix0, _), = byname["idx.indicator"]
    (crc_at, _), = byname["idx.crc32"]
    (c0, c1), = byname["idx.count"]
    recs = []
    if "idx.records" in byname:
        (r0, r1), = byname["idx.records"]
        p = r0
        while p < r1:
            u, p2 = vli(d, p, r1)
            c, p3 = vli(d, p2, r1)
            recs.append((u, c))
            p = p3

    def with_records(newrecs, newcount=None):
        """Rebuild the Index field in place if it keeps its length; returns None otherwise."""
        body = b"\0" + enc_vli(len(newrecs) if newcount is None else newcount) + b"".join(enc_vli(u) + enc_vli(c) for (u, c) in newrecs)
        pad = (-len(body)) % 4
        body += b"\0" * pad
        if len(body) != crc_at - ix0:
            return None
        b = bytearray(d)
        b[ix0:crc_at] = body
        fix_index(b, ix0, crc_at)
        return bytes(b)

    if len(recs) >= 2:
        for i in range(len(recs) - 1):
            if recs[i] != recs[i + 1]:
                sw = list(recs)
                sw[i], sw[i + 1] = sw[i + 1], sw[i]
                v = with_records(sw)
                if v is not None:
                    out.append(("index records %d and %d swapped, CRC fixed" % (i, i + 1), "idx.records", v))
                break
        # sums preserved: move one byte of uncompressed size from one record to another
        (u0, c0v), (u1, c1v) = recs[0], recs[1]
        if c1v >= 1:
            v = with_records([(u0, c0v + 1), (u1, c1v - 1)] + recs[2:])
            if v is not None:
                out.append(("index uncompressed sizes +1/-1 (sums kept), CRC fixed", "idx.records", v))
        if u1 > 8:
            v = with_records([(u0 + 4, c0v), (u1 - 4, c1v)] + recs[2:])
            if v is not None:
                out.append(("index unpadded sizes +4/-4 (sums kept), CRC fixed", "idx.records", v))
    if recs:
        u, c = recs[0]
        for (nu, nc, what) in ((u + 1, c, "unpadded+1"), (u, c + 1, "uncompressed+1"), (u - 1, c, "unpadded-1"), (u ^ 4, c, "unpadded^4")):
            v = with_records([(nu, nc)] + recs[1:])
            if v is not None and nu > 0:
                out.append(("index record 0 %s, CRC fixed" % what, "idx.records", v))
    # count field changed (same encoded length)
    for nc in (len(recs) + 1, len(recs) - 1):
        if 0 <= nc < 128 and len(recs) < 128:
            v = with_records(recs, newcount=nc)
            if v is not None:
                out.append(("index count %d->%d, CRC fixed" % (len(recs), nc), "idx.count", v))
    # non-minimal VLI for the count (needs a spare padding byte)
    if "idx.pad" in byname and len(recs) < 128:
        body = b"\0" + bytes([len(recs) | 0x80, 0x00]) + b"".join(enc_vli(u) + enc_vli(c) for (u, c) in recs)
        pad = (-len(body)) % 4
        body += b"\0" * pad
        if len(body) == crc_at - ix0:
            b = bytearray(d); b[ix0:crc_at] = body; fix_index(b, ix0, crc_at)
            out.append(("index count as non-minimal VLI, CRC fixed", "idx.count", bytes(b)))
    # index padding byte non-zero
    if "idx.pad" in byname:
        (p0, p1), = byname["idx.pad"]
        b = bytearray(d); b[p1 - 1] = 1; fix_index(b, ix0, crc_at)
        out.append(("index padding byte non-zero, CRC fixed", "idx.pad", bytes(b)))
    # Block Headers
    hdr_starts = byname.get("blk.hdr.size", [])
    hdr_crcs = byname.get("blk.hdr.crc32", [])
    for bi, ((h0, _), (hc0, hc1)) in enumerate(zip(hdr_starts, hdr_crcs)):
        if bi >= 2:
            break

        def fix_bh(buf):
            buf[hc0:hc1] = struct.pack("<I", zlib.crc32(bytes(buf[h0:hc0])))
        for (a, bnd, n) in segs:
            if not (h0 <= a < hc0):
                continue
            if n == "blk.hdr.pad":
                b = bytearray(d); b[bnd - 1] = 1; fix_bh(b)
                out.append(("block %d header padding non-zero, CRC fixed" % bi, n, bytes(b)))
            elif n == "blk.hdr.flags":
                b = bytearray(d); b[a] |= 0x04; fix_bh(b)
                out.append(("block %d header reserved flag bit, CRC fixed" % bi, n, bytes(b)))
                b = bytearray(d); b[a] = (b[a] & ~3) | ((b[a] + 1) & 3); fix_bh(b)
                out.append(("block %d header filter count changed, CRC fixed" % bi, n, bytes(b)))
            elif n in ("blk.hdr.csize", "blk.hdr.usize"):
                val, _ = vli(d, a, bnd)
                for nv in (val + 1, val - 1):
                    ev = enc_vli(nv) if nv >= 0 else None
                    if ev is not None and len(ev) == bnd - a and (nv > 0 or n == "blk.hdr.usize"):
                        b = bytearray(d); b[a:bnd] = ev; fix_bh(b)
                        out.append(("block %d %s %d->%d, CRC fixed" % (bi, n, val, nv), n, bytes(b)))
            elif n == "blk.hdr.filters":
                # last byte of the filter flags = last properties byte (LZMA2 dictionary size byte for a plain chain)
                b = bytearray(d); b[bnd - 1] = 41; fix_bh(b)
                out.append(("block %d last filter property byte = 41 (invalid dict size), CRC fixed" % bi, n, bytes(b)))
                b = bytearray(d); b[a] = 0x22; fix_bh(b)
                out.append(("block %d first filter id = 0x22 (unknown), CRC fixed" % bi, n, bytes(b)))
    out = [(w, fld, v, True) for (w, fld, v) in out]
    # EVERY single bit of every numeric / flag field that a CRC32 covers, with the covering CRC32 recomputed, so that the
    # check behind the CRC is what has to catch it (top bits of Backward Size, every VLI bit, reserved flag bits, ...).
    # must_reject: fields whose every change is an error by the format; for Block Flags and Filter Flags a changed value
    # can be a different but valid header (e.g. another dictionary size), so those are judged by "success => same data"
    # and by the model.
    must = {"ftr.bsize", "ftr.flags", "hdr.flags", "blk.hdr.csize", "blk.hdr.usize", "blk.hdr.pad", "idx.count", "idx.records", "idx.pad"}
    soft = {"blk.hdr.flags", "blk.hdr.filters"}
    hdr_ranges = [(h0, hc0, hc1) for ((h0, _), (hc0, hc1)) in zip(hdr_starts, hdr_crcs)]
    for (a, bnd, n) in segs:
        if n not in must and n not in soft:
            continue
        if n.startswith("blk.hdr.") and not any(h0 <= a < hc0 for (h0, hc0, _) in hdr_ranges[:2]):
            continue
        for bit in range(8 * (bnd - a)):
            b = bytearray(d)
            b[a + bit // 8] ^= 1 << (bit % 8)
            if n.startswith("ftr."):
                fix_footer(b)
            elif n.startswith("hdr."):
                fix_header(b)
            elif n.startswith("idx."):
                fix_index(b, ix0, crc_at)
            else:
                for (h0, hc0, hc1) in hdr_ranges:
                    if h0 <= a < hc0:
                        b[hc0:hc1] = struct.pack("<I", zlib.crc32(bytes(b[h0:hc0])))
            out.append(("%s bit %d (byte %d) flipped, CRC fixed" % (n, bit, a + bit // 8), n, bytes(b), n in must))
    # keep only real changes
    return [(w, fld, v, m) for (w, fld, v, m) in out if v != d]


# ----------------------------------------------------------------------------------------------------------------
# damaged Stream Padding (length not a multiple of four, non-zero byte inside): must be rejected with LZMA_CONCATENATED
# ----------------------------------------------------------------------------------------------------------------

def padding_variants(frec):
    """Returns [(description, data, region_start, region_end)] for an .xz file record: its Streams re-assembled with bad
    Stream Padding after the last Stream and between the first two Streams (a single-Stream file gets a copy of itself as
    second Stream). region = the byte range of the damaged padding."""
    if frec["fmt"] != "xz":
        return []
    d = frec["data"]
    streams = [d[s:e] for (s, e, _) in frec["units"]]
    out = []
    bad_pads = [(b"\0" * k, "%d zero bytes" % k) for k in (1, 2, 3, 5, 6, 7)]
    bad_pads += [(b"\0\1\0\0", "4 bytes with a non-zero byte at offset 1"), (b"\0\0\0\0\0\0\1\0", "8 bytes with a non-zero byte at offset 6"),
                 (b"\0\0\0\1", "4 bytes with a non-zero byte at offset 3")]
    body = b"".join(s + b"\0" * 4 for s in streams[:-1]) + streams[-1]
    for (pad, what) in bad_pads:
        out.append(("Stream Padding at EOF: " + what, body + pad, len(body), len(body) + len(pad)))
    first = streams[0]
    rest = streams[1:] if len(streams) > 1 else [streams[0]]
    tail = b"".join(s + b"\0" * 4 for s in rest[:-1]) + rest[-1]
    for (pad, what) in bad_pads:
        out.append(("Stream Padding between Streams: " + what, first + pad + tail, len(first), len(first) + len(pad)))
    return out


# ----------------------------------------------------------------------------------------------------------------
# hand-assembled .xz files whose Check fields come from INDEPENDENT implementations (zlib CRC32, the bitwise CRC-64
# below, hashlib SHA-256) and whose payload is LZMA2 uncompressed chunks, so that payload bytes == data bytes.
# A check function of the library that is merely self-consistent (e.g. ignores the tail of the data) rejects these
# files or accepts a flip of a data byte; only an oracle outside the library sees that.
# ----------------------------------------------------------------------------------------------------------------

def crc64_ref(data):
    c = 0xFFFFFFFFFFFFFFFF
    for b in data:
        c ^= b
        for _ in range(8):
            c = (c >> 1) ^ 0xC96C5795D7870F42 if c & 1 else c >> 1
    return c ^ 0xFFFFFFFFFFFFFFFF


def independent_check(check, data):
    import hashlib
    if check == 0:
        return b""
    if check == 1:
        return struct.pack("<I", zlib.crc32(data) & 0xFFFFFFFF)
    if check == 4:
        return struct.pack("<Q", crc64_ref(data))
    if check == 10:
        return hashlib.sha256(data).digest()
    raise ValueError(check)


def assemble_xz_stream(blocks, check):
    """blocks: list of plaintext byte strings, one Block each (LZMA2 uncompressed chunks, dictionary 4 KiB).
    Returns (stream bytes, [(data_start, data_end)] = where each Block's plaintext bytes sit in the file; for data
    longer than 64 KiB the range covers the chunk headers in between as well)."""
    out = bytearray(HEADER_MAGIC + bytes([0, check]))
    out += struct.pack("<I", zlib.crc32(bytes(out[6:8])))
    recs, ranges = [], []
    for data in blocks:
        bh = bytearray([0x02, 0x00, 0x21, 0x01, 0x00, 0, 0, 0])
        bh += struct.pack("<I", zlib.crc32(bytes(bh)))
        start = len(out)
        out += bh
        pay = bytearray()
        first, p = True, 0
        d0 = None
        while p < len(data):
            n = min(65536, len(data) - p)
            pay += bytes([0x01 if first else 0x02]) + struct.pack(">H", n - 1)
            if d0 is None:
                d0 = start + len(bh) + len(pay)
            pay += data[p:p + n]
            p += n
            first = False
        d1 = start + len(bh) + len(pay)
        pay += b"\0"
        out += pay
        out += b"\0" * ((-len(pay)) % 4)
        chk = independent_check(check, data)
        out += chk
        recs.append((len(bh) + len(pay) + len(chk), len(data)))
        ranges.append((d0 if d0 is not None else d1, d1))
    idx = b"\0" + enc_vli(len(recs)) + b"".join(enc_vli(u) + enc_vli(c) for (u, c) in recs)
    idx += b"\0" * ((-len(idx)) % 4)
    idx += struct.pack("<I", zlib.crc32(idx))
    out += idx
    ftr = struct.pack("<I", len(idx) // 4 - 1) + bytes([0, check])
    out += struct.pack("<I", zlib.crc32(ftr)) + ftr + FOOTER_MAGIC
    return bytes(out), ranges
