"""Stage G of C20: cut the quoting code, the sed programs, the `case` patterns and the exit-status blocks out of
src/scripts/xzgrep.in and xzdiff.in and render them as Lean literals (lean/XzVerif/Gen/C20.lean).

Everything is emitted as RAW SCRIPT TEXT (byte lists; the text is repeated in a comment) that the Lean model reads with
its own sh-word reader / sed parser / glob parser, except the exit-status blocks, which this file translates into the
small statement language of Model/Shell.lean (`Stmt`).  That translation is the only trusted rendering step; stage K
re-runs the very same script text under the real sh on a grid of status values and compares with the model.

A construct outside the supported shapes raises GenError: the caller reports "obligation broken" (never silently skipped)."""
import os, re


class GenError(Exception):
    pass


def _must(m, what):
    if not m:
        raise GenError("cannot find " + what)
    return m


def lineno(text, pos):
    return text.count("\n", 0, pos) + 1


def lean_bytes(b):
    if isinstance(b, str):
        b = b.encode("latin-1")
    return "[" + ", ".join(str(x) for x in b) + "]"


def comment_of(b):
    if isinstance(b, bytes):
        b = b.decode("latin-1")
    return b.replace("-/", "-​/").replace("/-", "/​-")


# ---------------------------------------------------------------------------------------------------------
# shell-word scanner (only to find where a word of the script ends)
# ---------------------------------------------------------------------------------------------------------

def scan_word(text, i):
    """text[i:] starts a shell word; return the index just after it ('…', "…", \\c and $( … ) are skipped as blocks)."""
    n = len(text)
    while i < n:
        c = text[i]
        if c in " \t\n;":
            break
        if c == "'":
            j = text.index("'", i + 1)
            i = j + 1
        elif c == '"':
            j = i + 1
            while text[j] != '"':
                j += 2 if text[j] == "\\" else 1
            i = j + 1
        elif c == "\\":
            i += 2
        else:
            i += 1
    return i


# ---------------------------------------------------------------------------------------------------------
# extraction
# ---------------------------------------------------------------------------------------------------------

SITE_RE = re.compile(
    r"case (?P<subj>\$\w+|\$\{1\?\"[^\"\n]*\"\}) in\s*\n"
    r"\s*\((?P<guard>[^)\n]*)\)\s*\n"
    r"\s*(?P<lhs>\w+)=(?P<pre>(?:\"[^\"\n]*\"|\\.|[^\s$\"\\])*)\$\(printf (?P<fmt>'[^'\n]*') \"\$(?P<var>\w+)\" \|\s*"
    r"LC_ALL=C sed \"\$escape\"\);;\s*\n"
    r"\s*\(\*\)\s*\n"
    r"\s*(?P=lhs)=(?P<plain>\"[^\"\n]*\");;\s*\n"
    r"\s*esac")


def cut_escape(text, what):
    m = _must(re.search(r"^escape=", text, re.M), what + ": escape=")
    end = scan_word(text, m.end())
    return text[m.end():end], lineno(text, m.start())


def cut_xzgrep(text):
    g = {}
    g["escapeSrc"], g["escapeLine"] = cut_escape(text, "xzgrep")
    sites = []
    for m in SITE_RE.finditer(text):
        sites.append(dict(line=lineno(text, m.start("lhs")), lhs=m.group("lhs"), guard=m.group("guard"), pre=m.group("pre"),
                          fmt=m.group("fmt"), plain=m.group("plain"), var=m.group("var")))
    # every use of "$escape" must be one of the recognised shapes (4 case sites + the option-splitting site)
    n_uses = len(re.findall(r'sed "\$escape"', text))
    m = _must(re.search(r"arg2=(?P<pre>(?:\\.|[^\s$\"\\])*)\$\(LC_ALL=C expr \"X\$\{option\}(?P<sfx>[^\"]*)\" : '(?P<re>[^']*)' \|\s*"
                        r"LC_ALL=C sed \"\$escape\"\)\s*\n\s*eval (?P<ev>\"set -- \$arg2 \"'\$\{1\+\"\$@\"\}')", text),
              "xzgrep: option-splitting site (arg2=…expr…sed \"$escape\"; eval \"set -- $arg2 \"'${1+\"$@\"}')")
    g["split"] = dict(line=lineno(text, m.start()), pre=m.group("pre"), sfx=m.group("sfx"), re=m.group("re"), ev=m.group("ev"))
    if n_uses != len(sites) + 1:
        raise GenError("xzgrep: %d uses of sed \"$escape\" but %d recognised quoting sites (+1 option split)" % (n_uses, len(sites)))
    want = {"optarg", "operands", "option", "grep"}
    if {s["lhs"] for s in sites} != want or len(sites) != 4:
        raise GenError("xzgrep: quoting sites found for %s, expected exactly %s" % (sorted(s["lhs"] for s in sites), sorted(want)))
    g["sites"] = sites
    m = _must(re.search(r"^eval (\"set -- \$operands \"'\$\{1\+\"\$@\"\}')\s*$", text, re.M), "xzgrep: eval \"set -- $operands …\"")
    g["evalOperands"] = m.group(1)
    m = _must(re.search(r"^\s*grep=(\"\$grep \$option\$optarg\")\s*$", text, re.M), "xzgrep: grep=\"$grep $option$optarg\"")
    g["grepAppend"] = m.group(1)
    evs = []
    for m in re.finditer(r"eval (\"\$grep(?:\\.|[^\"\\\n])*\")", text):
        if m.group(1) not in evs:
            evs.append(m.group(1))
    if len(evs) < 4:
        raise GenError("xzgrep: expected at least 4 distinct eval \"$grep…\" commands, found %r" % evs)
    g["grepEvals"] = evs
    # label fallback
    m = _must(re.search(r"\n\s*i=(\"\$i[^\"\n]*\")\s*\n(?:\s*#[^\n]*\n|\s*\n)*\s*case \$i in\s*\n\s*\((?P<pats>(?:'[^']*'|[^)'])*)\)\s*\n"
                        r"(?:\s*#[^\n]*\n)*"
                        r"\s*i=\$\(printf (?P<fmt>'[^'\n]*') \"\$i\" \| LC_ALL=C sed (?P<sed>'[^'\n]*')\) \|\|\s*\n"
                        r"\s*i=(?P<fallback>'[^'\n]*');;\s*\n\s*esac\s*\n(?:\s*#[^\n]*\n|\s*\n)*"
                        r"\s*sed_script=(?P<script>\"[^\"\n]*\")\s*\n", text), "xzgrep: label fallback block (i=\"$i:\" … sed_script=)")
    g["label"] = dict(line=lineno(text, m.start(1)), suffix=m.group(1), pats=m.group("pats"), fmt=m.group("fmt"), sed=m.group("sed"),
                      fallback=m.group("fallback"), script=m.group("script"))
    # decompressor dispatch
    m = _must(re.search(r"for i; do\s*\n\s*case \$i in\s*\n(?P<body>.*?)\n\s*esac", text, re.S), "xzgrep: case $i in … esac (decompressor)")
    arms = []
    for ln in m.group("body").split("\n"):
        mm = re.match(r"\s*(?P<pats>[^)]*)\)\s*uncompress=(?P<cmd>\"[^\"]*\");;\s*(?:#.*)?$", ln)
        if not mm:
            raise GenError("xzgrep: unsupported line in the decompressor case block: %r" % ln)
        arms.append((mm.group("pats").strip(), mm.group("cmd")))
    g["dispatch"] = arms
    g["dispatchLine"] = lineno(text, m.start("body"))
    m = _must(re.search(r"^xz=('[^'\n]*')\s*$", text, re.M), "xzgrep: xz='…'")
    g["xzVar"] = m.group(1)
    # exit-status blocks
    m = _must(re.search(r"\n  r=\$\?\n(?P<blk>.*?)\ndone\n", text, re.S), "xzgrep: status block after r=$?")
    g["fileStatusText"] = m.group("blk")
    g["fileStatusLine"] = lineno(text, m.start("blk"))
    g["fileStatus"] = translate_block(m.group("blk"))
    m = _must(re.search(r"\n\s*\) \|\| \{\n(?P<blk>.*?)\n\s*\}\n\s*(?P<fin>exit \$r)\n", text, re.S), "xzgrep: sed fallback status block")
    g["sedStatusText"] = m.group("blk") + "\n" + m.group("fin")
    g["sedStatusLine"] = lineno(text, m.start("blk"))
    inner = translate_block(m.group("blk"))
    simples = []
    for s in inner:
        if s[0] != "simple":
            raise GenError("xzgrep: sed status block: nested if not supported")
        simples.append(s[1])
    g["sedStatus"] = [("if", [([("cmp", "ne", ("v", "pipe"), ("n", 0))], simples)])] + translate_block(m.group("fin"))
    return g


def cut_xzdiff(text):
    g = {}
    g["escapeSrc"], g["escapeLine"] = cut_escape(text, "xzdiff")
    m = _must(re.search(r"\n\s*(?P<guard>[^)\s]+)\) cmp=(?P<pre>\"[^\"\n]*\")`printf (?P<fmt>'[^'\n]*') \"\$1\" \| sed \"\$escape\"`;;\s*\n"
                        r"\s*(?P<guard2>[^)\s]+)\) cmp=(?P<plain>\"[^\"\n]*\");;\s*\n", text), "xzdiff: option quoting arms")
    g["site"] = dict(line=lineno(text, m.start("guard")), guard=m.group("guard"), pre=m.group("pre"), fmt=m.group("fmt"),
                     guard2=m.group("guard2"), plain=m.group("plain"), var="1")
    if len(re.findall(r'sed "\$escape"', text)) != 1:
        raise GenError("xzdiff: expected exactly one use of sed \"$escape\"")
    m = _must(re.search(r"^cmp=(\"\$cmp --\")\s*$", text, re.M), "xzdiff: cmp=\"$cmp --\"")
    g["cmpDashDash"] = m.group(1)
    evs = []
    for m in re.finditer(r"eval (\"\$cmp\"(?: (?:'[^'\n]*'|-|/dev/fd/5))+)", text):
        if m.group(1) not in evs:
            evs.append(m.group(1))
    if len(evs) < 5:
        raise GenError("xzdiff: expected the eval \"$cmp\" … commands, found %r" % evs)
    g["cmpEvals"] = evs

    def arms_of(block, var, what):
        arms = []
        for ln in block.split("\n"):
            if not ln.strip():
                continue
            mm = re.match(r"\s*(?P<pats>[^)]*)\)\s*%s=(?P<cmd>'[^']*'|[\w-]+);;\s*$" % var, ln)
            if not mm:
                raise GenError("xzdiff: unsupported line in %s: %r" % (what, ln))
            arms.append((mm.group("pats").strip(), mm.group("cmd")))
        return arms
    m = _must(re.search(r"elif test \$# -eq 2; then\s*\n\s*case \$1 in\s*\n(?P<b1>.*?)\n\s*esac\s*\n\s*case \$2 in\s*\n(?P<b2>.*?)\n\s*esac\s*\n"
                        r"\s*case \$1 in\s*\n\s*(?P<c1>[^\n]*)\)\s*\n\s*case \"\$2\" in\s*\n\s*(?P<c2>[^\n]*)\)\s*\n", text, re.S),
              "xzdiff: two-operand dispatch")
    g["dispatch1"] = arms_of(m.group("b1"), "xz1", "case $1 (xz1)")
    g["dispatch2"] = arms_of(m.group("b2"), "xz2", "case $2 (xz2)")
    g["compressed"] = [m.group("c1"), m.group("c2")]
    g["dispatchLine"] = lineno(text, m.start("b1"))
    m = _must(re.search(r"\n\s*\*\)\s*\n\s*case \"\$2\" in\s*\n\s*(?P<c3>[^\n]*)\)\s*\n", text), "xzdiff: third compressed-suffix pattern list")
    g["compressed"].append(m.group("c3"))
    m = _must(re.search(r"^xz1=(\"\$xz[^\"\n]*\")\s*\nxz2=(\"\$xz[^\"\n]*\")\s*$", text, re.M), "xzdiff: xz1=/xz2= defaults")
    g["xzDefault"] = [m.group(1), m.group(2)]
    m = _must(re.search(r"^xz=('[^'\n]*')\s*$", text, re.M), "xzdiff: xz='…'")
    g["xzVar"] = m.group(1)
    # one-operand dispatch
    m = _must(re.search(r"if test \$# -eq 1; then\s*\n\s*case \$1 in\s*\n(?P<body>.*?)\n\s*esac", text, re.S), "xzdiff: one-operand case")
    body = m.group("body")
    arms1 = []
    # simpler, line based: a pattern line ends with ')' ; the following lines up to ';;' are the action
    arms1 = []
    cur = None
    for ln in body.split("\n"):
        s = ln.strip()
        if cur is None:
            if not s.endswith(")"):
                raise GenError("xzdiff: one-operand case: expected a pattern line, got %r" % ln)
            cur = [s[:-1].strip(), []]
        else:
            cur[1].append(s)
            if s.endswith(";;"):
                act = " ".join(cur[1])
                if act == ";;":
                    cmd = None                      # keep xz
                elif re.fullmatch(r"xz1=('[^']*'|[\w-]+);;", act):
                    cmd = act[4:-2]
                elif "Unknown compressed file name suffix" in act and "exit 2" in act:
                    cmd = "!"
                else:
                    raise GenError("xzdiff: one-operand case: unsupported action %r" % act)
                arms1.append((cur[0], cmd))
                cur = None
    g["dispatchOne"] = arms1
    # exit status
    m = _must(re.search(r"\ncmp_status=\$\?\nfor num in \$xz_status ; do\n(?P<body>.*?)\ndone\n(?P<fin>exit \$cmp_status)\n", text, re.S),
              "xzdiff: final status loop")
    g["statusText"] = "cmp_status=$?\nfor num in $xz_status ; do\n" + m.group("body") + "\ndone\n" + m.group("fin")
    g["statusLine"] = lineno(text, m.start("body"))
    g["statusBody"] = translate_block(m.group("body"))
    g["statusFinal"] = translate_block(m.group("fin"))
    return g


# ---------------------------------------------------------------------------------------------------------
# status blocks -> Stmt
# ---------------------------------------------------------------------------------------------------------

VARS = {"r": "r", "xz_status": "xz", "sed_status": "sed", "res": "res", "num": "num", "cmp_status": "cmp", "?": "pipe"}
OPS = {"-lt": "lt", "-le": "le", "-gt": "gt", "-ge": "ge", "-eq": "eq", "-ne": "ne"}


def t_opnd(tok):
    m = re.fullmatch(r"\"?\$(\w+|\?)\"?", tok)
    if m:
        if m.group(1) not in VARS:
            raise GenError("status block: unknown variable $" + m.group(1))
        return ("v", VARS[m.group(1)])
    if re.fullmatch(r"\d+", tok):
        return ("n", int(tok))
    raise GenError("status block: unsupported operand %r" % tok)


def t_cond(s):
    s = s.strip()
    m = re.fullmatch(r"test (\S+) (-\w\w) (\S+)", s)
    if m and m.group(2) in OPS:
        return ("cmp", OPS[m.group(2)], t_opnd(m.group(1)), t_opnd(m.group(3)))
    m = re.fullmatch(r"test -z \"\$(\w+)\"", s)
    if m:
        return ("empty", VARS[m.group(1)])
    m = re.fullmatch(r"test \"\$\(kill -l \"\$(\w+)\" 2> /dev/null\)\" (!=|=) \"PIPE\"", s)
    if m:
        return ("isPipe", VARS[m.group(1)], m.group(2) == "=")
    raise GenError("status block: unsupported condition %r" % s)


def t_act(s):
    s = s.strip()
    m = re.fullmatch(r"exit (\S+)", s)
    if m:
        return ("exit", t_opnd(m.group(1)))
    if s == "continue":
        return ("continue",)
    m = re.fullmatch(r"(\w+)=(\S+)", s)
    if m:
        if m.group(1) not in VARS:
            raise GenError("status block: assignment to unknown variable " + m.group(1))
        return ("set", VARS[m.group(1)], t_opnd(m.group(2)))
    raise GenError("status block: unsupported action %r" % s)


def t_simple(s):
    parts = [p.strip() for p in s.split("&&")]
    return ([t_cond(p) for p in parts[:-1]], t_act(parts[-1]))


def translate_block(text):
    """Shell lines -> list of ("simple", (conds, act)) | ("if", [(conds, [simple…])…])."""
    text = re.sub(r"\\\n", " ", text)
    lines = []
    for ln in text.split("\n"):
        s = ln.strip()
        if not s or s.startswith("#"):
            continue
        lines.append(re.sub(r"\s+", " ", s))
    out, i = [], 0
    while i < len(lines):
        s = lines[i]
        m = re.fullmatch(r"if (.*); then", s)
        if m:
            arms = [([t_cond(c) for c in m.group(1).split("&&")], [])]
            i += 1
            while True:
                if i >= len(lines):
                    raise GenError("status block: if without fi")
                s = lines[i]
                i += 1
                if s == "fi":
                    break
                m2 = re.fullmatch(r"elif (.*); then", s)
                if m2:
                    arms.append(([t_cond(c) for c in m2.group(1).split("&&")], []))
                elif s == "else":
                    arms.append(([], []))
                elif s.startswith("if "):
                    raise GenError("status block: nested if is outside the supported subset")
                else:
                    arms[-1][1].append(t_simple(s))
            out.append(("if", arms))
        else:
            out.append(("simple", t_simple(s)))
            i += 1
    return out


# ---------------------------------------------------------------------------------------------------------
# rendering
# ---------------------------------------------------------------------------------------------------------

def r_opnd(o):
    return "(.v .%s)" % o[1] if o[0] == "v" else "(.n %d)" % o[1]


def r_cond(c):
    if c[0] == "cmp":
        return ".cmp .%s %s %s" % (c[1], r_opnd(c[2]), r_opnd(c[3]))
    if c[0] == "empty":
        return ".empty .%s" % c[1]
    return ".isPipe .%s %s" % (c[1], "true" if c[2] else "false")


def r_act(a):
    if a[0] == "exit":
        return ".exit %s" % r_opnd(a[1])
    if a[0] == "continue":
        return ".continue_"
    return ".set .%s %s" % (a[1], r_opnd(a[2]))


def r_simple(s):
    return "⟨[%s], %s⟩" % (", ".join(r_cond(c) for c in s[0]), r_act(s[1]))


def r_stmts(stmts):
    rows = []
    for s in stmts:
        if s[0] == "simple":
            rows.append("  .simple %s" % r_simple(s[1]))
        else:
            arms = ",\n".join("      ([%s], [%s])" % (", ".join(r_cond(c) for c in conds), ", ".join(r_simple(x) for x in body)) for conds, body in s[1])
            rows.append("  .ifChain [\n%s]" % arms)
    return "[\n" + ",\n".join(rows) + "]"


def render(repo):
    gp = os.path.join(repo, "src/scripts/xzgrep.in")
    dp = os.path.join(repo, "src/scripts/xzdiff.in")
    gt = open(gp, encoding="latin-1").read()
    dt = open(dp, encoding="latin-1").read()
    g = cut_xzgrep(gt)
    d = cut_xzdiff(dt)
    o = []
    w = o.append
    w("/-  REGENERATED on every check run by tools/c20gen.py from src/scripts/xzgrep.in and src/scripts/xzdiff.in.")
    w("    Do not edit. Each definition is the raw script text (bytes) of the construct named in its comment. -/")
    w("import XzVerif.Model.Shell")
    w("namespace XzVerif.Gen.C20")
    w("open XzVerif.Shell")
    w("")

    def bdef(name, val, doc):
        w("/-- %s\n```\n%s\n``` -/" % (doc, comment_of(val)))
        w("def %s : Bytes := %s" % (name, lean_bytes(val)))
        w("")

    def site(s):
        return "⟨%d, %s, %s, %s, %s, %s⟩" % (s["line"], lean_bytes(s["guard"]), lean_bytes(s["pre"]), lean_bytes(s["fmt"]),
                                             lean_bytes(s["plain"]), lean_bytes(s["var"]))
    bdef("grepEscapeSrc", g["escapeSrc"], "xzgrep.in:%d  `escape=` this shell word" % g["escapeLine"])
    bdef("diffEscapeSrc", d["escapeSrc"], "xzdiff.in:%d  `escape=` this shell word" % d["escapeLine"])
    w("/-- xzgrep.in: the `case … in (GUARD) lhs=PRE$(printf FMT \"$var\" | LC_ALL=C sed \"$escape\");; (*) lhs=PLAIN;; esac` sites:")
    for s in g["sites"]:
        w("    line %d: %s: guard `%s` pre `%s` fmt `%s` plain `%s`" % (s["line"], s["lhs"], comment_of(s["guard"]), comment_of(s["pre"]), comment_of(s["fmt"]), comment_of(s["plain"])))
    w("-/")
    names = {"optarg": "siteOptarg", "operands": "siteOperands", "option": "siteOption", "grep": "sitePattern"}
    for s in g["sites"]:
        w("def %s : QuoteSite := %s" % (names[s["lhs"]], site(s)))
    w("def grepSites : List QuoteSite := [" + ", ".join(names[s["lhs"]] for s in g["sites"]) + "]")
    w("")
    s = d["site"]
    w("/-- xzdiff.in:%d  `%s) cmp=%s`printf %s \"$1\" | sed \"$escape\"`;;  %s) cmp=%s;;` -/" % (
        s["line"], comment_of(s["guard"]), comment_of(s["pre"]), comment_of(s["fmt"]), comment_of(s["guard2"]), comment_of(s["plain"])))
    w("def diffSite : QuoteSite := " + site(s))
    bdef("diffPlainGuard", s["guard2"], "xzdiff.in:%d  guard of the plain-quoting arm" % (s["line"] + 1))
    bdef("cmpDashDashSrc", d["cmpDashDash"], "xzdiff.in  `cmp=` this word (after the option loop)")
    w("/-- xzdiff.in: the distinct argument lists of `eval \"$cmp\" …`:")
    for e in d["cmpEvals"]:
        w("    `eval %s`" % comment_of(e))
    w("-/")
    w("def cmpEvalSrcs : List Bytes := [\n  " + ",\n  ".join(lean_bytes(e) for e in d["cmpEvals"]) + "]")
    w("")
    sp = g["split"]
    bdef("splitPrefixSrc", sp["pre"], "xzgrep.in:%d  `arg2=`PREFIX`$(LC_ALL=C expr \"X${option}%s\" : '%s' | LC_ALL=C sed \"$escape\")`" % (sp["line"], sp["sfx"], comment_of(sp["re"])))
    bdef("splitGuardSuffix", sp["sfx"], "the bytes appended after ${option} in that expr subject (the guard that protects trailing newlines)")
    bdef("evalSetArg2Src", sp["ev"], "xzgrep.in:%d  eval of the re-split option" % (sp["line"] + 2))
    bdef("evalSetOperandsSrc", g["evalOperands"], "xzgrep.in  eval that restores the operands")
    bdef("grepAppendSrc", g["grepAppend"], "xzgrep.in  `grep=` this word (appends a re-quoted option)")
    w("/-- xzgrep.in: the distinct `eval \"$grep…\"` commands:")
    for e in g["grepEvals"]:
        w("    `eval %s`" % comment_of(e))
    w("-/")
    w("def grepEvalSrcs : List Bytes := [\n  " + ",\n  ".join(lean_bytes(e) for e in g["grepEvals"]) + "]")
    w("")
    lb = g["label"]
    bdef("labelSuffixSrc", lb["suffix"], "xzgrep.in:%d  `i=` this word" % lb["line"])
    bdef("labelGuardPats", lb["pats"], "xzgrep.in  `case $i in (`PATTERNS`)`: names that need escaping")
    bdef("labelPrintfFmt", lb["fmt"], "xzgrep.in  printf format feeding the label sed")
    bdef("labelSedSrc", lb["sed"], "xzgrep.in  the label-escaping sed program (shell word)")
    bdef("labelFallbackSrc", lb["fallback"], "xzgrep.in  value used when sed fails")
    bdef("labelScriptSrc", lb["script"], "xzgrep.in  `sed_script=` this word")
    w("/-- xzgrep.in:%d  `case $i in` PATTERNS`) uncompress=`CMD`;;` -/" % g["dispatchLine"])
    rows = ["  (%s, %s)" % (lean_bytes(p), lean_bytes(c)) for p, c in g["dispatch"]]
    w("def grepDispatch : List (Bytes × Bytes) := [\n" + ",\n".join(rows) + "]")
    w("/- rows: " + " ;; ".join("%s ) %s" % (comment_of(p), comment_of(c)) for p, c in g["dispatch"]) + " -/")
    w("")
    bdef("grepXzVarSrc", g["xzVar"], "xzgrep.in  `xz=` this word")
    bdef("diffXzVarSrc", d["xzVar"], "xzdiff.in  `xz=` this word")
    w("/-- xzdiff.in  `xz1=`/`xz2=` defaults -/")
    w("def diffXzDefaultSrcs : List Bytes := [%s]" % ", ".join(lean_bytes(x) for x in d["xzDefault"]))
    w("")
    for nm, key in (("diffDispatch1", "dispatch1"), ("diffDispatch2", "dispatch2")):
        w("/-- xzdiff.in:%d  two operands, `case $%s in` PATTERNS`) xz%s=`CMD`;;`\n    rows: %s -/" % (
            d["dispatchLine"], nm[-1], nm[-1], " ;; ".join("%s ) %s" % (comment_of(p), comment_of(c)) for p, c in d[key])))
        w("def %s : List (Bytes × Bytes) := [\n" % nm + ",\n".join("  (%s, %s)" % (lean_bytes(p), lean_bytes(c)) for p, c in d[key]) + "]")
        w("")
    w("/-- xzdiff.in  the three copies of the pattern list that decides whether an operand is decompressed at all:\n    %s -/" % comment_of(d["compressed"][0]))
    w("def diffCompressedPats : List Bytes := [\n" + ",\n".join("  " + lean_bytes(c) for c in d["compressed"]) + "]")
    w("")
    w("/-- xzdiff.in  one operand: `case $1 in` PATTERNS`)` action; `none` = keep xz, `some \"!\"` = \"Unknown compressed file name suffix\", exit 2\n    rows: %s -/" % (
        " ;; ".join("%s ) %s" % (comment_of(p), c) for p, c in d["dispatchOne"])))
    w("def diffDispatchOne : List (Bytes × Option Bytes) := [\n" + ",\n".join(
        "  (%s, %s)" % (lean_bytes(p), "none" if c is None else "some " + lean_bytes(c)) for p, c in d["dispatchOne"]) + "]")
    w("")
    w("/-- xzgrep.in:%d  after each file:\n```\n%s\n``` -/" % (g["fileStatusLine"], comment_of(g["fileStatusText"])))
    w("def grepFileStatus : List Stmt := " + r_stmts(g["fileStatus"]))
    w("")
    w("/-- xzgrep.in:%d  sed fallback, `r=$( … ) || {` this block `}` ; `pipe` is `$?` of the pipeline (sed's status):\n```\n%s\n``` -/" % (g["sedStatusLine"], comment_of(g["sedStatusText"])))
    w("def grepSedStatusStmts : List Stmt := " + r_stmts(g["sedStatus"]))
    w("")
    w("/-- xzdiff.in:%d\n```\n%s\n``` -/" % (d["statusLine"], comment_of(d["statusText"])))
    w("def diffStatusBody : List Stmt := " + r_stmts(d["statusBody"]))
    w("def diffStatusFinal : List Stmt := " + r_stmts(d["statusFinal"]))
    w("")
    w("end XzVerif.Gen.C20")
    return "\n".join(o) + "\n", g, d
