#!/usr/bin/env python3
"""Common machinery for the xz verification checks (see DESIGN.md section 2).

Stages:  G regenerate Gen/*.lean  ->  P lake build + axiom audit  ->  B build /repo + harness
         ->  K correspondence (model vs implementation)  ->  S search for a failing input
         ->  E evidence + VIOLATION / KNOWN-FINDING lines.
Everything here derives paths from this file's location, never from the cwd.
"""
import fcntl, hashlib, json, os, random, re, shlex, shutil, subprocess, sys, time

ROOT = os.path.dirname(os.path.dirname(os.path.abspath(__file__)))
REPO = os.path.abspath(os.environ.get("VERIF_REPO", "/repo"))
# The C-side cache is per source tree, so that a scratch worktree (VERIF_REPO=/tmp/wt ./check Cnn), used to try
# a mutation, never disturbs the builds of /repo that other checks are using.
CACHE = os.path.join(ROOT, ".cache") if REPO == "/repo" else os.path.join(ROOT, ".cache", "alt-" + hashlib.sha1(REPO.encode()).hexdigest()[:10])
LEANCACHE = os.path.join(ROOT, ".cache")
LEAN = os.path.join(ROOT, "lean")
if REPO != "/repo":
    # A scratch tree also gets a PRIVATE copy of the Lean project (sources + build products), so that the Gen files
    # regenerated from it and the rebuilt drivers never disturb checks of /repo (or of other scratch trees) running at
    # the same time. Copied once under the main project's lock (a consistent snapshot), sources refreshed afterwards.
    import fcntl as _f
    os.makedirs(CACHE, exist_ok=True)
    _alt = os.path.join(CACHE, "lean")
    with open(os.path.join(LEANCACHE, "lock-lean"), "w") as _lk:
        _f.flock(_lk, _f.LOCK_EX)
        if not os.path.isdir(os.path.join(_alt, ".lake")):
            subprocess.run(["rsync", "-a", "--delete", LEAN + "/", _alt + "/"], check=False)
        else:
            subprocess.run(["rsync", "-a", "--exclude", ".lake", "--exclude", "XzVerif/Gen", LEAN + "/", _alt + "/"], check=False)
        _f.flock(_lk, _f.LOCK_UN)
    LEAN = _alt
    LEANCACHE = CACHE
GUARD = "TUKAANI_PROJECT_XZ_VERIF"
NCPU = os.cpu_count() or 4

ALLOWED_AXIOMS = {"propext", "Classical.choice", "Quot.sound"}
FORBIDDEN = re.compile(r"\bsorry\b|\badmit\b|^\s*axiom\s|\bnative_decide\b|\bimplemented_by\b|\bunsafe\s|maxHeartbeats\s+0\b|\bbv_decide\b", re.M)

os.makedirs(CACHE, exist_ok=True)


def sh(cmd, cwd=None, timeout=None, env=None, inp=None):
    """Run a command, return (rc, stdout+stderr).  The command gets its own process group; on timeout the whole group
    is killed (a timed-out `lake build` must not leave its `lean` children holding the project lock)."""
    e = dict(os.environ)
    if env:
        e.update(env)
    p = subprocess.Popen(cmd, cwd=cwd, env=e, stdin=subprocess.PIPE if inp is not None else subprocess.DEVNULL,
                         stdout=subprocess.PIPE, stderr=subprocess.STDOUT, shell=isinstance(cmd, str),
                         start_new_session=True)
    try:
        out, _ = p.communicate(inp, timeout=timeout)
        return p.returncode, out.decode("utf-8", "replace")
    except subprocess.TimeoutExpired:
        try:
            os.killpg(p.pid, 9)
        except OSError:
            pass
        try:
            out, _ = p.communicate(timeout=10)
        except Exception:
            out = b""
        return 124, (out or b"").decode("utf-8", "replace") + "\n[timeout]"


class Lock:
    def __init__(self, name):
        self.path = os.path.join(LEANCACHE if name == "lean" else CACHE, "lock-" + name)

    def __enter__(self):
        self.f = open(self.path, "w")
        fcntl.flock(self.f, fcntl.LOCK_EX)
        return self

    def __exit__(self, *a):
        fcntl.flock(self.f, fcntl.LOCK_UN)
        self.f.close()


def write_if_changed(path, content):
    os.makedirs(os.path.dirname(path), exist_ok=True)
    try:
        with open(path) as f:
            if f.read() == content:
                return False
    except FileNotFoundError:
        pass
    with open(path + ".tmp", "w") as f:
        f.write(content)
    os.replace(path + ".tmp", path)
    return True


# --------------------------------------------------------------------------------------------
# Lean side
# --------------------------------------------------------------------------------------------

def strip_lean_comments(src):
    out = []
    i, n, depth = 0, len(src), 0
    while i < n:
        if src.startswith("/-", i):
            depth += 1
            i += 2
        elif depth and src.startswith("-/", i):
            depth -= 1
            i += 2
        elif depth:
            if src[i] == "\n":
                out.append("\n")
            i += 1
        elif src.startswith("--", i):
            while i < n and src[i] != "\n":
                i += 1
        elif src[i] == '"':
            j = i + 1
            while j < n and src[j] != '"':
                j += 2 if src[j] == "\\" else 1
            out.append('""')
            out.append("\n" * src.count("\n", i, j))
            i = j + 1
        else:
            out.append(src[i])
            i += 1
    return "".join(out)


def module_path(mod):
    return os.path.join(LEAN, *mod.split(".")) + ".lean"


def local_imports(mod, seen=None):
    """Transitive closure of XzVerif.* / Driver.* imports of a module (the files a proof depends on)."""
    seen = seen if seen is not None else {}
    if mod in seen:
        return seen
    p = module_path(mod)
    if not os.path.exists(p):
        return seen
    src = open(p).read()
    seen[mod] = p
    for m in re.finditer(r"^\s*(?:public\s+)?import\s+((?:XzVerif|Driver)[\w.]*)", src, re.M):
        local_imports(m.group(1), seen)
    return seen


def theorems_in(path):
    """Fully qualified names of the theorems declared in a Lean file (tracks `namespace`/`end`)."""
    src = strip_lean_comments(open(path).read())
    ns, names = [], []
    for line in src.split("\n"):
        m = re.match(r"\s*namespace\s+(\S+)", line)
        if m:
            ns.append(m.group(1))
            continue
        m = re.match(r"\s*end\s+(\S+)\s*$", line)
        if m and ns and ns[-1] == m.group(1):
            ns.pop()
            continue
        m = re.match(r"\s*(?:@\[[^\]]*\]\s*)*(?:private\s+|protected\s+)?theorem\s+([^\s:({\[]+)", line)
        if m:
            names.append(".".join(ns + [m.group(1)]))
    return names


def lake(args, timeout=1200):
    with Lock("lean"):
        return sh(["lake"] + args, cwd=LEAN, timeout=timeout)


def lean_run_file(path, timeout=1200):
    # under the project lock: a concurrent `lake build` of another check may be replacing the .olean files this reads
    with Lock("lean"):
        return sh(["lake", "env", "lean", path], cwd=LEAN, timeout=timeout)


def model_exe(name):
    return os.path.join(LEAN, ".lake", "build", "bin", name)


# --------------------------------------------------------------------------------------------
# C side
# --------------------------------------------------------------------------------------------

VARIANTS = {
    # sanitizer build: asserts on, ASan + UBSan, hooks on
    "asan": dict(type="Debug", cflags="-O1 -g -fno-omit-frame-pointer -fsanitize=address,undefined "
                 "-fno-sanitize-recover=all -D%s" % GUARD,
                 opts=["-DXZ_SANDBOX=no", "-DXZ_NLS=OFF", "-DXZ_DOC=OFF"]),
    # plain optimised build with the repo's default feature set, hooks on (CLI properties)
    "rel": dict(type="RelWithDebInfo", cflags="-D%s" % GUARD,
                opts=["-DXZ_NLS=OFF", "-DXZ_DOC=OFF"]),
    # assertions on, no sanitizers (fast differential runs)
    "dbg": dict(type="Debug", cflags="-O2 -g -D%s" % GUARD,
                opts=["-DXZ_NLS=OFF", "-DXZ_DOC=OFF", "-DXZ_SANDBOX=no"]),
    "tsan": dict(type="Debug", cflags="-O1 -g -fsanitize=thread -D%s" % GUARD,
                 opts=["-DXZ_SANDBOX=no", "-DXZ_NLS=OFF", "-DXZ_DOC=OFF"]),
}


def build_dir(variant):
    return os.path.join(CACHE, "build-" + variant)


def c_build(variant="asan", targets=None):
    """Configure (if needed) and build /repo's working tree out of tree. Returns (ok, log, dir)."""
    v = VARIANTS[variant]
    bd = build_dir(variant)
    with Lock("c-" + variant):
        log = ""
        if not os.path.exists(os.path.join(bd, "build.ninja")):
            shutil.rmtree(bd, ignore_errors=True)
            cmd = ["cmake", "-G", "Ninja", "-S", REPO, "-B", bd, "-DCMAKE_BUILD_TYPE=" + v["type"],
                   "-DCMAKE_C_FLAGS=" + v["cflags"], "-DCMAKE_EXPORT_COMPILE_COMMANDS=ON",
                   "-DBUILD_TESTING=OFF"] + v["opts"]
            rc, out = sh(cmd, timeout=600)
            log += out
            if rc != 0:
                return False, log, bd
        cmd = ["cmake", "--build", bd, "-j", str(NCPU)]
        if targets:
            cmd += ["--target"] + list(targets)
        rc, out = sh(cmd, timeout=1800)
        log += out
        return rc == 0, log, bd


def lib_flags(variant="asan", tu="src/liblzma/common/common.c"):
    """-D/-I/-std/-f flags the build uses for a liblzma translation unit (from compile_commands.json)."""
    bd = build_dir(variant)
    cc = json.load(open(os.path.join(bd, "compile_commands.json")))
    for e in cc:
        if e["file"].endswith(tu):
            toks = shlex.split(e["command"])
            out, skip = [], False
            for i, t in enumerate(toks[1:]):
                if skip:
                    skip = False
                    continue
                if t in ("-o", "-c", "-MF", "-MT"):
                    skip = True
                    continue
                if t == "-MD" or t.endswith(".c") or t.endswith(".o"):
                    continue
                out.append(t)
            return out
    raise RuntimeError("no compile command for " + tu)


def harness_build(name, sources, variant="asan", extra=None, tu="src/liblzma/common/common.c", cxx=False, link_lib=True, libs=()):
    """Compile harness sources (paths relative to /verif/harness) against the variant build of /repo.
    Each source becomes its own object with its own depfile; an object is rebuilt whenever one of its
    dependencies (incl. every #included repo file) is newer; the executable is relinked when needed."""
    bd = build_dir(variant)
    outdir = os.path.join(CACHE, "harness-" + variant)
    os.makedirs(outdir, exist_ok=True)
    exe = os.path.join(outdir, name)
    srcs = [s if os.path.isabs(s) else os.path.join(ROOT, "harness", s) for s in sources]
    lib = os.path.join(bd, "liblzma.a")
    flags = lib_flags(variant, tu)
    flags = [f for f in flags if not f.startswith("-W") and f != "-fvisibility=hidden"]
    cc = "g++" if cxx else "cc"
    log = ""
    with Lock("h-" + variant + "-" + name):
        objs, relink = [], not os.path.exists(exe)
        for sp in srcs:
            obj = os.path.join(outdir, name + "." + os.path.basename(sp) + ".o")
            dep = obj + ".d"
            objs.append(obj)
            need = True
            if os.path.exists(obj) and os.path.exists(dep):
                t = os.path.getmtime(obj)
                deps = re.sub(r"\\\n", " ", open(dep).read()).split(":", 1)[-1].split()
                deps += [sp, os.path.abspath(__file__)]
                need = any((not os.path.exists(d)) or os.path.getmtime(d) > t for d in deps)
            if need:
                cmd = [cc] + flags + ["-w", "-I" + os.path.join(ROOT, "harness"), "-MD", "-MF", dep] + (extra or []) + ["-c", sp, "-o", obj]
                rc, out = sh(cmd, timeout=600)
                log += out
                if rc != 0:
                    return False, log, exe
                relink = True
        if link_lib and os.path.exists(exe) and os.path.getmtime(lib) > os.path.getmtime(exe):
            relink = True
        if relink:
            lflags = [f for f in flags if f.startswith("-fsanitize") or f in ("-g", "-pthread")]
            cmd = [cc] + lflags + objs + ["-o", exe] + ([lib] if link_lib else []) + list(libs) + ["-lpthread"]
            rc, out = sh(cmd, timeout=600)
            log += out
            if rc != 0:
                return False, log, exe
    return True, log, exe


# --------------------------------------------------------------------------------------------
# correspondence helpers
# --------------------------------------------------------------------------------------------

def run_lines(argv, lines, timeout=1800, env=None):
    """Feed op lines to a line-protocol program; return (rc, list of output lines, stderr tail)."""
    e = dict(os.environ)
    e.setdefault("ASAN_OPTIONS", "detect_leaks=1:abort_on_error=0:allocator_may_return_null=1")
    e.setdefault("UBSAN_OPTIONS", "print_stacktrace=1:halt_on_error=1")
    if env:
        e.update(env)
    data = ("\n".join(lines) + "\n").encode()
    try:
        p = subprocess.run(argv, input=data, stdout=subprocess.PIPE, stderr=subprocess.PIPE, timeout=timeout, env=e)
        return p.returncode, p.stdout.decode("utf-8", "replace").split("\n")[:-1], p.stderr.decode("utf-8", "replace")[-4000:]
    except subprocess.TimeoutExpired as ex:
        out = (ex.stdout or b"").decode("utf-8", "replace").split("\n")
        return 124, out, "[timeout]"


def par_map(fn, items, workers=None):
    from concurrent.futures import ThreadPoolExecutor
    with ThreadPoolExecutor(max_workers=workers or NCPU) as ex:
        return list(ex.map(fn, items))


def chunks(lst, n):
    k = max(1, (len(lst) + n - 1) // n)
    return [lst[i:i + k] for i in range(0, len(lst), k)]


def hexs(b):
    return b.hex() if len(b) else "-"


# --------------------------------------------------------------------------------------------
# one check run
# --------------------------------------------------------------------------------------------

class Check:
    def __init__(self, pid, tier=None, seed=None):
        self.pid = pid
        self.tier = tier or os.environ.get("VERIF_TIER", "quick")
        if self.tier not in ("quick", "thorough"):
            self.tier = "quick"
        self.seed = int(seed if seed is not None else os.environ.get("VERIF_SEED", "1"))
        self.rng = random.Random((self.seed << 8) ^ int(hashlib.sha1(pid.encode()).hexdigest()[:8], 16))
        self.t0 = time.time()
        self.cov = {"evaluations": 0, "distinct_nontrivial": 0, "rule": "", "samples": [],
                    "obligations": 0, "discharged": 0, "checker_cmd": "", "trusted_base": [],
                    "theorems": [], "axioms": {}, "correspondence": {}, "distribution": {}}
        self.assumptions = []
        self.violations = []       # (replay_path, found_input)
        self.known_hits = []
        self.broken = []           # names of proof obligations / correspondences that no longer check
        self.known = self._load_known()
        self._distinct = set()
        self.replay_n = 0
        self.log_lines = []

    # -- bookkeeping -----------------------------------------------------------------------
    def quick(self):
        return self.tier == "quick"

    def log(self, msg):
        line = "[%s %6.1fs] %s" % (self.pid, time.time() - self.t0, msg)
        self.log_lines.append(line)
        print(line, flush=True)

    def _load_known(self):
        p = os.path.join(ROOT, "known_findings.json")
        try:
            d = json.load(open(p))
        except Exception:
            return []
        return [f for f in d.get("findings", []) if f.get("property") == self.pid]

    def count(self, key, n=1, table="distribution"):
        d = self.cov[table]
        d[key] = d.get(key, 0) + n

    def case(self, desc, nontrivial=True, sample=None):
        """Record one explored case; `desc` identifies it for distinctness."""
        self.cov["evaluations"] += 1
        if nontrivial:
            h = hashlib.sha1(repr(desc).encode()).digest()[:8]
            if h not in self._distinct:
                self._distinct.add(h)
                self.cov["distinct_nontrivial"] += 1
        if sample is not None and len(self.cov["samples"]) < 8:
            self.cov["samples"].append(sample)

    # -- failure protocol ------------------------------------------------------------------
    def replay_path(self, tag):
        d = os.path.join(ROOT if REPO == "/repo" else CACHE, "replays", self.pid)
        os.makedirs(d, exist_ok=True)
        self.replay_n += 1
        return os.path.join(d, "%s-seed%d-%s-%d.json" % (self.pid, self.seed, re.sub(r"[^\w.-]", "_", tag)[:60], self.replay_n))

    def known_match(self, key):
        for f in self.known:
            if f.get("key") == key or (f.get("key_prefix") and key.startswith(f["key_prefix"])):
                return f
        return None

    def violation(self, tag, replay, found_input=True, key=None):
        """Report a property violation. `replay` is a JSON-able dict with everything needed to replay.
        If `key` matches an entry of known_findings.json, it is reported as KNOWN-FINDING instead."""
        if key is not None:
            f = self.known_match(key)
            if f is not None:
                if key not in [k for k, _ in self.known_hits]:
                    self.known_hits.append((key, f))
                return None
        path = self.replay_path(tag)
        replay = dict(replay)
        replay.setdefault("property", self.pid)
        replay.setdefault("seed", self.seed)
        replay.setdefault("tier", self.tier)
        replay["found_failing_input"] = bool(found_input)
        if key is not None:
            replay["key"] = key
        with open(path, "w") as f:
            json.dump(replay, f, indent=1, default=str)
        self.violations.append((path, found_input))
        self.log("VIOLATION candidate (%s) -> %s" % (tag, path))
        return path

    def obligation_broken(self, name, detail):
        self.broken.append({"name": name, "detail": detail[-3000:]})
        self.log("obligation/correspondence no longer checks: " + name)

    # -- stage P ---------------------------------------------------------------------------
    def lean_stage(self, prop_modules, exes=(), extra_allowed_axioms=(), bv_decide_ok=("XzVerif.Lemmas.BitWords",)):
        """lake build the property modules (+ drivers), audit axioms, grep for forbidden constructs.
        Returns True iff every obligation checks. Broken ones are recorded via obligation_broken()."""
        t = time.time()
        targets = list(prop_modules) + list(exes)
        rc, out = lake(["build"] + targets)
        self.cov["checker_cmd"] = "cd lean && lake build " + " ".join(targets) + " && lake env lean <generated #print axioms file>"
        all_thms = []
        for m in prop_modules:
            p = module_path(m)
            if os.path.exists(p):
                all_thms += theorems_in(p)
        self.cov["obligations"] = len(all_thms)
        self.cov["theorems"] = all_thms
        ok = True
        if rc != 0:
            ok = False
            errs = re.findall(r"error: ([^\n]*\.lean):(\d+):(\d+): ([^\n]*)", out)
            names = set()
            for fpath, line, col, msg in errs:
                names.add(self._enclosing_decl(fpath, int(line)))
            if not names:
                names.add("lake build " + " ".join(targets))
            for nme in sorted(names):
                self.obligation_broken(nme, out)
            self.cov["discharged"] = 0
            self.cov["lean_build_s"] = round(time.time() - t, 1)
            return False
        # forbidden constructs in every file the property modules depend on
        files = {}
        for m in list(prop_modules):
            local_imports(m, files)
        for mod, p in sorted(files.items()):
            src = strip_lean_comments(open(p).read())
            for mm in FORBIDDEN.finditer(src):
                word = mm.group(0).strip()
                if word == "bv_decide" and any(mod.startswith(b) for b in bv_decide_ok):
                    continue
                ok = False
                self.obligation_broken("forbidden construct `%s` in %s" % (word, mod), src[max(0, mm.start() - 200):mm.end() + 200])
        # axioms
        audit = os.path.join(CACHE, "audit", self.pid + ".lean")
        body = "".join("import %s\n" % m for m in prop_modules) + "".join("#print axioms %s\n" % n for n in all_thms)
        write_if_changed(audit, body)
        rc, out = lean_run_file(audit)
        ax = {}
        for m in re.finditer(r"'(\S+)' depends on axioms: \[([^\]]*)\]", out):
            ax[m.group(1)] = [a.strip() for a in m.group(2).replace("\n", " ").split(",") if a.strip()]
        for m in re.finditer(r"'(\S+)' does not depend on any axioms", out):
            ax[m.group(1)] = []
        self.cov["axioms"] = {k: v for k, v in ax.items()}
        discharged = 0
        allowed = set(ALLOWED_AXIOMS) | set(extra_allowed_axioms)
        for n in all_thms:
            if n not in ax:
                ok = False
                self.obligation_broken("axiom audit missing for " + n, out)
                continue
            # bv_decide axioms are accepted only for lemmas living in namespace XzVerif.BitWords
            bad = [a for a in ax[n] if a not in allowed
                   and not (bv_decide_ok and re.match(r"XzVerif\.BitWords\..*\._native\.bv_decide\.ax_\d+", a))]
            if bad:
                ok = False
                self.obligation_broken("unexpected axioms in %s: %s" % (n, bad), out)
            else:
                discharged += 1
        self.cov["discharged"] = discharged
        # thorough tier: independent re-check of the compiled .olean files of everything the proofs import
        if ok and self.tier == "thorough" and "leanchecker" not in self.cov and shutil.which("leanchecker"):
            mods = sorted(files.keys())
            t1 = time.time()
            res = par_map(lambda m: (m,) + sh(["lake", "env", "leanchecker", m], cwd=LEAN, timeout=1800), mods, workers=6)
            bad = [(m, out) for (m, rc, out) in res if rc != 0]
            self.cov["leanchecker"] = {"modules": len(mods), "failed": [m for m, _ in bad], "wall_s": round(time.time() - t1, 1)}
            for m, out in bad:
                ok = False
                self.obligation_broken("leanchecker rejects " + m, out)
        used = sorted({a for v in ax.values() for a in v})
        self.cov["trusted_base"] = ["Lean 4 kernel (lake build)", "axioms used: " + (", ".join(used) if used else "none")]
        self.cov["lean_build_s"] = round(time.time() - t, 1)
        return ok

    def _enclosing_decl(self, fpath, line):
        try:
            p = fpath if os.path.isabs(fpath) else os.path.join(LEAN, fpath)
            src = open(p).read().split("\n")
            for i in range(min(line, len(src)) - 1, -1, -1):
                m = re.match(r"\s*(?:@\[[^\]]*\]\s*)*(?:private\s+|protected\s+)?(theorem|lemma|def|example|instance|abbrev)\s+([^\s:({\[]+)?", src[i])
                if m:
                    return "%s %s (%s:%d)" % (m.group(1), m.group(2) or "", os.path.relpath(p, LEAN), line)
        except Exception:
            pass
        return "%s:%d" % (fpath, line)

    # -- stage E ---------------------------------------------------------------------------
    def finish(self, level="proof"):
        # obligations that broke but for which the search found no failing input
        if self.broken and not any(fi for _, fi in self.violations):
            path = self.replay_path("no-longer-checks")
            with open(path, "w") as f:
                json.dump({"property": self.pid, "seed": self.seed, "tier": self.tier, "found_failing_input": False,
                           "no_longer_checks": self.broken}, f, indent=1)
            self.violations.append((path, False))
        cov = self.cov
        if not cov["rule"]:
            cov["rule"] = "see distribution"
        if cov["distinct_nontrivial"] < 2 and level != "proof":
            pass
        ev = {"property_id": self.pid, "tier": self.tier, "seed": self.seed, "level": level,
              "coverage": cov, "assumptions": self.assumptions, "wall_s": round(time.time() - self.t0, 2),
              "violations": len(self.violations),
              "known_findings_hit": [k for k, _ in self.known_hits],
              "broken_obligations": [b["name"] for b in self.broken]}
        evdir = os.path.join(ROOT, "evidence") if REPO == "/repo" else os.path.join(CACHE, "evidence")
        os.makedirs(evdir, exist_ok=True)
        p = os.path.join(evdir, self.pid + ".json")
        with open(p + ".tmp", "w") as f:
            json.dump(ev, f, indent=1, default=str)
        os.replace(p + ".tmp", p)
        for key, f in self.known_hits:
            print("KNOWN-FINDING: property=%s %s" % (self.pid, f.get("what", key)), flush=True)
        for path, found in self.violations:
            print("VIOLATION property=%s replay=%s%s" % (self.pid, path, "" if found else " no-failing-input-found"), flush=True)
        self.log("done: %d evaluations, %d/%d obligations, %d violations, %.1fs" % (
            cov["evaluations"], cov["discharged"], cov["obligations"], len(self.violations), time.time() - self.t0))
        return 1 if self.violations else 0


# --------------------------------------------------------------------------------------------
# stage G helpers: regenerate Lean from the source by compiling a probe against /repo
# --------------------------------------------------------------------------------------------

def gen_probe(name, source, out_module, incs=(), variant=None, tu="src/liblzma/common/common.c", extra=()):
    """Compile harness/<source> (a C program that #includes files of /repo and prints a Lean file),
    run it, and write the output to lean/<out_module>.lean iff it changed.
    Returns (ok, log). With `variant`, the build's own -D/-I flags are used (c_build must have run)."""
    outdir = os.path.join(CACHE, "gen")
    os.makedirs(outdir, exist_ok=True)
    exe = os.path.join(outdir, name)
    src = source if os.path.isabs(source) else os.path.join(ROOT, "harness", source)
    flags = []
    if variant:
        flags = [f for f in lib_flags(variant, tu) if f.startswith("-D") or f.startswith("-I") or f.startswith("-std")]
        flags = [f for f in flags if "NDEBUG" not in f]
    cmd = ["cc", "-O0", "-w"] + flags + ["-I" + os.path.join(REPO, i) for i in incs] + list(extra) + [src, "-o", exe]
    with Lock("gen-" + name):
        rc, out = sh(cmd, timeout=300)
        if rc != 0:
            return False, "probe does not compile:\n" + out
        rc, out = sh([exe], timeout=300)
        if rc != 0:
            return False, "probe failed:\n" + out[-2000:]
    write_if_changed(module_path(out_module), out)
    return True, ""


def lean_nat_list(vals, per_line=8):
    rows = []
    for i in range(0, len(vals), per_line):
        rows.append("  " + ", ".join(str(v) for v in vals[i:i + per_line]))
    return "[\n" + ",\n".join(rows) + "]"
