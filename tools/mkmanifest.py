#!/usr/bin/env python3
"""Regenerates /verif/MANIFEST.json from the META dict of every tools/props/cNN.py module.
Properties without a module are listed under not_applicable with the reason from PENDING below."""
import importlib, json, os, sys
HERE = os.path.dirname(os.path.abspath(__file__))
ROOT = os.path.dirname(HERE)
sys.path.insert(0, HERE)

PENDING = {}  # property id -> reason, for properties that are not claimed

# Properties whose check has been validated by the coordinator on the unchanged tree (several seeds, both tiers).
# A property module that exists but is not listed here is still under construction and is not claimed.
READY_FILE = os.path.join(ROOT, "tools", "ready.txt")

def main():
    ids = [json.loads(l)["id"] for l in open(os.path.join(ROOT, "properties.jsonl"))]
    checks, na = [], []
    ready = set(open(READY_FILE).read().split()) if os.path.exists(READY_FILE) else None
    for pid in ids:
        if ready is not None and pid not in ready:
            na.append({"property_id": pid, "reason": PENDING.get(pid, "check under construction at this commit (plan: DESIGN.md section 7); nothing is claimed for this property yet")})
            continue
        try:
            mod = importlib.import_module("props." + pid.lower())
            meta = mod.META
        except (ModuleNotFoundError, AttributeError):
            na.append({"property_id": pid, "reason": PENDING.get(pid, "check not built yet (in progress; see DESIGN.md section 7 for the plan) - nothing is claimed for this property at this commit")})
            continue
        checks.append({
            "property_id": pid,
            "quick_cmd": "./check %s --tier quick" % pid,
            "thorough_cmd": "./check %s --tier thorough" % pid,
            "evidence_file": "evidence/%s.json" % pid,
            "replay_cmd_template": "./check %s --replay {path}" % pid,
            "engine": "lean4+correspondence",
            "level_claimed": {"category": meta.get("category", "proof"), "text": meta["text"], "design_ref": meta.get("design_ref", "DESIGN.md section 7 / " + pid)},
            "level_note": meta["note"],
            "technique": meta["technique"],
        })
    hooks_commits = []
    hp = os.path.join(ROOT, "hooks_commits.txt")
    if os.path.exists(hp):
        hooks_commits = [l.split()[0] for l in open(hp) if l.strip() and not l.startswith("#")]
    man = {
        "version": 1,
        "setup_cmd": "./setup.sh",
        "hooks": {
            "guard": "TUKAANI_PROJECT_XZ_VERIF",
            "enable": "checks configure /repo out of tree into /verif/.cache/build-<variant> with -DCMAKE_C_FLAGS containing -DTUKAANI_PROJECT_XZ_VERIF (tools/vlib.py VARIANTS)",
            "baseline_off_cmd": "sh -c 'd=$(mktemp -d /tmp/xzoff.XXXXXX) && cmake -G Ninja -S /repo -B $d -DCMAKE_BUILD_TYPE=RelWithDebInfo -DCMAKE_C_FLAGS=-Wno-error >/dev/null && cmake --build $d >/dev/null && ctest --test-dir $d -j8 --timeout 900; rc=$?; rm -rf $d; exit $rc'",
            "source_commits": hooks_commits,
            "add_only": True,
        },
        "engines": [{
            "name": "lean4+correspondence", "path": "check",
            "serves_properties": [c["property_id"] for c in checks],
            "kind_free_text": "Lean 4 theorems about executable models (lean/XzVerif), regenerated Gen/*.lean from /repo, and a differential correspondence between the compiled model drivers (lean/Driver) and harnesses calling the real code (harness/), orchestrated by tools/vlib.py",
        }],
        "checks": checks,
        "not_applicable": na,
        "notes": "All checks rebuild from /repo's working tree into /verif/.cache (git-ignored). VERIF_SEED and VERIF_TIER are honoured. See DESIGN.md.",
    }
    with open(os.path.join(ROOT, "MANIFEST.json"), "w") as f:
        json.dump(man, f, indent=1)
    print("MANIFEST.json: %d checks, %d not claimed" % (len(checks), len(na)))

if __name__ == "__main__":
    main()
