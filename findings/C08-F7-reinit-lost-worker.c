// Minimal reproducer (no harness, plain liblzma API): re-initialising the threaded encoder with an unchanged
// thread count right after a Block was handed to a worker loses that worker; the next Stream never completes.
//   cc C08-F7-reinit-lost-worker.c -I/repo/src/liblzma/api <build>/liblzma.a -lpthread && ./a.out
// Expected: prints "finished". Observed on the unchanged tree: hangs in lzma_code (alarm -> "HANG").
#include <lzma.h>
#include <stdio.h>
#include <string.h>
#include <signal.h>
#include <unistd.h>

static void on_alarm(int s) { (void)s; const char m[] = "HANG: lzma_code did not return within 5 s\n"; if (write(1, m, sizeof m - 1)) {} _exit(1); }

int main(void)
{
	static uint8_t in[100], out[65536];
	memset(in, 'a', sizeof in);
	lzma_mt mt = { .threads = 1, .block_size = 4096, .preset = 0, .check = LZMA_CHECK_CRC32 };
	lzma_stream s = LZMA_STREAM_INIT;
	if (lzma_stream_encoder_mt(&s, &mt) != LZMA_OK) return 2;
	s.next_in = in; s.avail_in = sizeof in; s.next_out = out; s.avail_out = sizeof out;
	lzma_ret r = lzma_code(&s, LZMA_RUN);          // consumes the input, starts a worker, returns at once
	printf("first stream: lzma_code(LZMA_RUN) = %d, consumed %zu\n", (int)r, sizeof in - s.avail_in);
	if (lzma_stream_encoder_mt(&s, &mt) != LZMA_OK) return 2;   // abandon it: re-init, same thread count
	signal(SIGALRM, on_alarm); alarm(5);
	s.next_in = in; s.avail_in = sizeof in; s.next_out = out; s.avail_out = sizeof out;
	do r = lzma_code(&s, LZMA_FINISH); while (r == LZMA_OK);
	printf("finished: %d, %llu bytes\n", (int)r, (unsigned long long)s.total_out);
	lzma_end(&s);
	return 0;
}
