// Minimal reproducer (plain liblzma API): re-initialising the threaded encoder with an unchanged thread count and a
// LARGER block_size reuses the worker's input buffer thr->in, which was allocated for the old block_size;
// stream_encode_in() then copies up to the new block_size bytes into it (heap buffer overflow, deterministic).
//   cc -fsanitize=address C08-F6-reinit-blocksize-overflow.c -I/repo/src/liblzma/api <asan-build>/liblzma.a -lpthread && ./a.out
#include <lzma.h>
#include <stdio.h>
#include <string.h>

int main(void)
{
	static uint8_t in[65536], out[1 << 17];
	for (size_t i = 0; i < sizeof in; ++i) in[i] = (uint8_t)(i * 7 + (i >> 8));
	lzma_mt mt = { .threads = 1, .block_size = 4096, .preset = 0, .check = LZMA_CHECK_CRC32 };
	lzma_stream s = LZMA_STREAM_INIT;
	if (lzma_stream_encoder_mt(&s, &mt) != LZMA_OK) return 2;
	s.next_in = in; s.avail_in = 4096; s.next_out = out; s.avail_out = sizeof out;
	lzma_ret r;
	do r = lzma_code(&s, LZMA_FINISH); while (r == LZMA_OK);       // a complete first Stream (the worker exists now)
	printf("first stream: %d, %llu bytes\n", (int)r, (unsigned long long)s.total_out);
	mt.block_size = 65536;
	if (lzma_stream_encoder_mt(&s, &mt) != LZMA_OK) return 2;       // same thread count, larger Blocks
	s.next_in = in; s.avail_in = sizeof in; s.next_out = out; s.avail_out = sizeof out;
	do r = lzma_code(&s, LZMA_FINISH); while (r == LZMA_OK);       // writes 65536 bytes into the 4096-byte thr->in
	printf("second stream: %d, %llu bytes\n", (int)r, (unsigned long long)s.total_out);
	lzma_end(&s);
	return 0;
}
