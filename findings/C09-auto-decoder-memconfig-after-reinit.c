/* Demonstration for the defect repaired by the fix commit "auto decoder memconfig ignores the previous file's
   sub-decoder after re-init": before the fix prints memlimit_get = 209715200 and set(40000) -> 6. */
#include <lzma.h>
#include <stdio.h>
#include <string.h>
int main(void){
  uint8_t in[4096], xzb[8192], out[8192]; size_t xl=0; memset(in,'a',sizeof in);
  lzma_easy_buffer_encode(6, LZMA_CHECK_CRC32, NULL, in, sizeof in, xzb, &xl, sizeof xzb);
  lzma_stream s = LZMA_STREAM_INIT;
  if (lzma_auto_decoder(&s, 100u<<20, 0)) return 2;
  s.next_in=xzb; s.avail_in=xl; s.next_out=out; s.avail_out=sizeof out;
  lzma_ret r=lzma_code(&s, LZMA_FINISH); printf("first decode %d\n", r);
  lzma_memlimit_set(&s, 200u<<20);
  if (lzma_auto_decoder(&s, 50u<<20, 0)) return 2;
  uint64_t g=lzma_memlimit_get(&s); printf("memlimit_get after reinit = %llu (expect %u)\n",(unsigned long long)g, 50u<<20);
  r = lzma_memlimit_set(&s, 40000); printf("set(40000) -> %d (expect 0)\n", r);
  lzma_end(&s); return g != (50u<<20) || r != 0;
}
